/-
  Model of basic_robotics/utilities/disp.py: `disp`, `dispa`, `printTFlist`, `disptex` on the objects the
  property quantifies over.  Numbers are exact: a float is a sign and a magnitude num/den (what its bits denote), and
  Python's `'{:W.Pf}'.format(x)` is modelled by exact round-half-even of the decimal expansion.
  Strings that come from Python's own `str()` of an object without a shape (scalars, strings, None, tuples, 0-d
  arrays) are inputs of the model (`Obj.opaque`).
  The rendered text is produced as a list of `Line`s so that the cells of the numeric rows stay visible to the
  theorems; `flatten` turns it into the string that is compared with the real output.
  Import-free.
-/
namespace BR.Disp

/-- a number as the formatter sees it -/
inductive Num where
  | fin (neg : Bool) (num den : Nat)     -- magnitude num/den (den > 0); `neg` also records -0.0
  | nan
  | inf (neg : Bool)
  deriving Repr, DecidableEq

/-- nearest integer to num/den, ties to even -/
def roundHalfEven (num den : Nat) : Nat :=
  let q := num / den
  let r := num % den
  if 2 * r < den then q
  else if den < 2 * r then q + 1
  else if q % 2 = 0 then q else q + 1

def natDigits (n : Nat) : String := toString n

def padLeft (w : Nat) (c : Char) (s : String) : String :=
  String.ofList (List.replicate (w - s.length) c) ++ s

/-- the integer n = round(|x|·10^p) written with p decimals -/
def fixedDigits (n p : Nat) : String :=
  if p = 0 then natDigits n
  else natDigits (n / 10 ^ p) ++ "." ++ padLeft p '0' (natDigits (n % 10 ^ p))

/-- the rounded integer a finite number is printed from -/
def scaled (num den p : Nat) : Nat := roundHalfEven (num * 10 ^ p) den

/-- `'{:W.Pf}'.format(x)` -/
def fmtFixed (x : Num) (w p : Nat) : String :=
  match x with
  | Num.nan => padLeft w ' ' "nan"
  | Num.inf neg => padLeft w ' ' (if neg then "-inf" else "inf")
  | Num.fin neg num den => padLeft w ' ' ((if neg then "-" else "") ++ fixedDigits (scaled num den p) p)

/-- `abs(x) >= 9999` -/
def isBig : Num → Bool
  | Num.fin _ num den => decide (9999 * den ≤ num)
  | Num.nan => false
  | Num.inf _ => true

/-- number of decimals actually used for x when nd are requested (`t_nd`) -/
def reduceDecimals : Nat → Nat → Nat → Nat
  | 0, tnd, _ => tnd
  | fuel + 1, tnd, nm => if 0 < tnd ∧ 6 < nm then reduceDecimals fuel (tnd - 1) (nm - 1) else tnd

def decimalsFor (x : Num) (nd : Nat) : Nat :=
  if isBig x then
    match x with
    | Num.inf _ => reduceDecimals nd nd 3
    | Num.fin _ num den => reduceDecimals nd nd (natDigits (roundHalfEven num den)).length
    | Num.nan => nd
  else nd

/-- one cell of a numeric row -/
def cell (nd : Nat) (x : Num) : String := fmtFixed x (nd + 6) (decimalsFor x nd)

/-! ### documents -/

inductive Line where
  | text (s : String)
  | row (pre : String) (cells : List String) (post : String)
  deriving Repr

def Line.render : Line → String
  | Line.text s => s ++ "\n"
  | Line.row pre cells post => pre ++ ",".intercalate cells ++ post ++ "\n"

def flatten (ls : List Line) : String := String.join (ls.map Line.render)

def Line.cells : Line → List String
  | Line.text _ => []
  | Line.row _ cs _ => cs

def rep (n : Nat) (s : String) : String := String.join (List.replicate n s)

/-- the corner pieces: an extra bar when the title has an even number of characters -/
def tl (title : String) : String := if title.length % 2 = 0 then "╔═" else "╔"
def bl (title : String) : String := if title.length % 2 = 0 then "╚═" else "╚"

/-- number of bars in `t_bar`: the least k with len(title) + 8 + 2k ≥ t_key·(nd+7) -/
def barCount (title : String) (tkey nd : Nat) : Nat :=
  let target := tkey * (nd + 7)
  let have_ := title.length + 8
  if target ≤ have_ then 0 else (target - have_ + 1) / 2

def tbar (title : String) (tkey nd : Nat) : String := rep (barCount title tkey nd) "═"

/-- the i-th sub-array (row-major) of an array with leading extent n and `m` elements per sub-array -/
def chunk (data : List Num) (m i : Nat) : List Num := (data.drop (i * m)).take m

def prodList : List Nat → Nat
  | [] => 1
  | x :: xs => x * prodList xs

/-- one vector as a row: `h` selects the frame characters (0 = "║ … ║", 1 = "╔ … ╗", 2 = "╚ … ╝") -/
def vecRow (nd : Nat) (frame : Nat) (xs : List Num) : Line :=
  match frame with
  | 1 => Line.row "╔ " (xs.map (cell nd)) " ╗"
  | 2 => Line.row "╚ " (xs.map (cell nd)) " ╝"
  | _ => Line.row "║ " (xs.map (cell nd)) " ║"

/-- rows of a 2-D block (without any title lines) -/
def rows2 (nd : Nat) (n m : Nat) (data : List Num) : List Line :=
  (List.range n).map fun i =>
    vecRow nd (if i = 0 then 1 else if i = n - 1 then 2 else 0) (chunk data m i)

/-- a 3-D block: title lines around the 2-D blocks, each preceded by "DIM i:" when pdims -/
def disp3 (k n m : Nat) (data : List Num) (title : String) (nd : Nat) (pdims : Bool) : List Line :=
  let tb := tbar title m nd
  [Line.text (tl title ++ tb ++ " " ++ title ++ " BEGIN " ++ tb ++ "╗")] ++
  (List.range k).flatMap (fun i =>
    (if pdims then [Line.text ("DIM " ++ toString i ++ ":")] else []) ++ rows2 nd n m (chunk data (n * m) i)) ++
  [Line.text (bl title ++ tb ++ "═ " ++ title ++ " END ═" ++ tb ++ "╝")]

/-- `dispa` on a numeric array of the given shape (row-major data); `top` = called by the user (`new`) -/
def dispaArr : (shape : List Nat) → (data : List Num) → (title : String) → (nd : Nat) → (pdims : Bool) → (top : Bool) → List Line
  | [], _, _, _, _, _ => []      -- 0-d arrays are `Obj.opaque` (dispa falls back to str)
  | [n], data, title, nd, _, top =>
    -- a vector: optional "title: " prefix glued to the row
    let pre := if top ∧ title ≠ "MATRIX" then title ++ ": " else ""
    [Line.row (pre ++ "║ ") ((data.take n).map (cell nd)) " ║"]
  | [n, m], data, title, nd, _, _ =>
    let tb := tbar title m nd
    let head := if title ≠ "MATRIX" then [Line.text (tl title ++ tb ++ " " ++ title ++ " BEGIN " ++ tb ++ "╗")] else []
    let foot := if title ≠ "MATRIX" then [Line.text (bl title ++ tb ++ "═ " ++ title ++ " END ═" ++ tb ++ "╝")] else []
    head ++ rows2 nd n m data ++ foot
  | [k, n, m], data, title, nd, pdims, _ => disp3 k n m data title nd pdims
  | [j, k, n, m], data, title, nd, pdims, _ =>
    let tb := tbar title m nd
    [Line.text (tl title ++ tb ++ "══ " ++ title ++ " BEGIN ══" ++ tb ++ "╗")] ++
    (List.range j).flatMap (fun i => disp3 k n m (chunk data (k * n * m) i) (title ++ " d:" ++ toString i) nd pdims) ++
    [Line.text (bl title ++ tb ++ "═══ " ++ title ++ " END ═══" ++ tb ++ "╝")]
  | _, _, _, _, _, _ => []      -- five and more axes: not modelled (rendered by the code with default decimals)

/-! ### lists of transforms / wrenches -/

def tmSymbols : List String := ["Xm", "Ym", "Zm", "Xr", "Yr", "Zr"]
def wrSymbols : List String := ["Mx", "My", "Mz", "Fx", "Fy", "Fz"]

/-- Python's `round(x)` of a non-negative half-integer-or-integer 2a/2 (ties to even), as an Int possibly negative -/
def roundHalfInt (twice : Int) : Int :=
  -- twice = 2·value; value is an integer or a half-integer
  if twice % 2 = 0 then twice / 2
  else
    let lo := (twice - 1) / 2
    if lo % 2 = 0 then lo else lo + 1

/-- `printTFlist(matrix, title, nd, tm_names)`; `cols` holds the six numbers of every object -/
def printTFlist (cols : List (List Num)) (title : String) (nd : Nat) (tmNames : Bool) : List Line :=
  let n := cols.length
  let base : Nat := 2 * n * (nd + 1) + (2 * n + 1)
  let tLen := base + 3
  -- until_title = round(base/2 - len/2 - 1) = round((base - len - 2)/2)
  let untl : Int := roundHalfInt ((base : Int) - (title.length : Int) - 2)
  let untilN := untl.toNat
  let restN := ((tLen : Int) - untl - 2 - (title.length : Int)).toNat
  let sep := fun (c : String) => String.join ((List.range n).map fun i => rep (nd + 6) "═" ++ (if i ≠ n - 1 then c else ""))
  let names := if tmNames then tmSymbols else wrSymbols
  [Line.text ("╔" ++ rep untilN "═" ++ " " ++ title ++ " " ++ rep restN "═" ++ "╗"),
   Line.text ("╠══╦═" ++ sep "╦" ++ "═╣")] ++
  (List.range 6).map (fun j =>
    Line.row ("║" ++ names.getD j "" ++ "║ ") (cols.map fun c => cell nd (c.getD j Num.nan)) " ║") ++
  [Line.text ("╚══╩═" ++ sep "╩" ++ "═╝")]

/-! ### objects -/

inductive Obj where
  | opaque (str : String)                         -- no usable shape: dispa prints str(obj)
  | arr (shape : List Nat) (data : List Num)      -- numeric array with 1..4 axes (also a single Wrench: shape [6,1])
  | tm (taa : List Num)                           -- a transform: its TAA column (shape [6,1]) is shown with defaults
  | wrench (w : List Num)                         -- a wrench *inside a list* (outside a list it is an `arr`)
  | list (items : List Obj)

def isTm : Obj → Bool | Obj.tm _ => true | _ => false
def isWrench : Obj → Bool | Obj.wrench _ => true | _ => false
def six : Obj → List Num | Obj.tm t => t | Obj.wrench w => w | _ => []

mutual
/-- `dispa(obj, title, nd, pdims)` called by the user -/
def dispaObj : Obj → String → Nat → Bool → List Line
  | Obj.opaque s, title, _, _ => [Line.text ((if title ≠ "MATRIX" then title ++ ": " else "") ++ s)]
  | Obj.arr shape data, title, nd, pdims => dispaArr shape data title nd pdims true
  | Obj.tm taa, title, _, _ => dispaArr [6, 1] taa title 3 true true
  | Obj.wrench w, title, nd, pdims => dispaArr [6, 1] w title nd pdims true
  | Obj.list items, title, nd, pdims =>
    if items.all isTm then printTFlist (items.map six) title nd true
    else if items.all isWrench then printTFlist (items.map six) title nd false
    else
      [Line.text (tl title ++ "════════════" ++ " " ++ title ++ " BEGIN " ++ "════════════" ++ "╗")] ++
      dispaItems items 0 pdims ++
      [Line.text (bl title ++ "════════════" ++ title ++ " END ═" ++ "════════════" ++ "╝")]
/-- the items of a generic list: each is rendered with all defaults -/
def dispaItems : List Obj → Nat → Bool → List Line
  | [], _, _ => []
  | o :: os, i, pdims =>
    (if pdims then [Line.text ("Dim " ++ toString i ++ ":")] else []) ++ dispaObj o "MATRIX" 3 true ++ dispaItems os (i + 1) pdims
end

/-- `disp(obj, title, nd, mode=0, pdims)`: the rendered text without its final newline -/
def disp (o : Obj) (title : String) (nd : Nat) (pdims : Bool) : String :=
  let s := flatten (dispaObj o title nd pdims)
  String.ofList (s.toList.dropLast)

end BR.Disp
