/-
  Model of basic_robotics/interfaces/comms_core.py (class Comms) over in-memory endpoint
  doubles (import-free; run by the driver, reasoned about in BR/Props/C19.lean).

  Endpoint double (harness/c19.py, subclass of CommsObject):
    getData : closed -> None ; inbox empty -> None ; else pop the head (a head `none` is a
              receive that timed out).
    sendData d : logs (name, d, ok := open) ; returns ok.
    openCom : open := true, returns true.   closeCom (base class) : returns the old `open`.
-/
namespace BR.Comms

abbrev Name := Nat
abbrev Table := Name → Option (List Nat)

structure EP where
  isOpen : Bool
  inbox : List (Option Nat)

structure St where
  names : List Name
  ep : Name → EP
  fwd : Table
  sinks : Table
  srcs : Table
  cnt : Nat → Nat

inductive Ev where
  | send (n : Name) (d : Option Nat) (ok : Bool)
  | sink (h : Nat) (d : Option Nat)
  | src (h : Nat)
  deriving DecidableEq, Repr

inductive Ret where
  | bool (b : Bool)
  | data (d : Option Nat)
  | none
  deriving DecidableEq, Repr

inductive Op where
  | fwd (i o : Name)
  | del (i o : Name)
  | sink (i : Name) (h : Option Nat)
  | source (o : Name) (h : Option Nat)
  | get (i : Name)
  | send (n : Name) (d : Option Nat)
  | spin (k : Nat)
  | opn (n : Name)
  | cls (n : Name)
  | inject (n : Name) (d : Option Nat)

def Table.upd (t : Table) (k : Name) (v : List Nat) : Table := fun x => if x = k then some v else t x

/-- entries registered under a key (absent key = no entries) -/
def Table.at (t : Table) (k : Name) : List Nat := (t k).getD []

/-- the common body of setForwardData / setDataSink / setDataSource after the None checks -/
def register (t : Table) (k : Name) (h : Nat) : Table × Bool :=
  match t k with
  | some l => if h ∈ l then (t, false) else (t.upd k (l ++ [h]), true)
  | none => (t.upd k [h], true)

def unregister (t : Table) (k : Name) (h : Nat) : Table × Bool :=
  match t k with
  | some l => if h ∈ l then (t.upd k (l.erase h), true) else (t, false)
  | none => (t, false)

def setEp (s : St) (n : Name) (e : EP) : St := { s with ep := fun x => if x = n then e else s.ep x }

/-- one receive on the double: new endpoint state and what was read -/
def recv (e : EP) : EP × Option Nat :=
  if !e.isOpen then (e, none) else
  match e.inbox with
  | [] => (e, none)
  | x :: rest => ({ e with inbox := rest }, x)

def sendEv (s : St) (n : Name) (d : Option Nat) : Ev := Ev.send n d (s.ep n).isOpen

/-- Comms.getData(name) -/
def getData (s : St) (i : Name) : St × Ret × List Ev :=
  if i ∈ s.names then
    let (e', rx) := recv (s.ep i)
    let s' := setEp s i e'
    match rx with
    | none => (s', Ret.data none, [])
    | some m =>
      (s', Ret.data (some m),
        (s'.fwd.at i).map (fun d => sendEv s' d (some m)) ++ (s'.sinks.at i).map (fun h => Ev.sink h (some m)))
  else (s, Ret.none, [])

/-- value produced by the k-th call of source `h` (the harness' source doubles do the same) -/
def srcVal (h k : Nat) : Nat := 1000 + 100 * h + k

def callSources (s : St) (n : Name) : List Nat → St × List Ev
  | [] => (s, [])
  | h :: hs =>
    let v := srcVal h (s.cnt h)
    let s1 := { s with cnt := fun x => if x = h then s.cnt h + 1 else s.cnt x }
    let (s2, evs) := callSources s1 n hs
    (s2, Ev.src h :: sendEv s n (some v) :: evs)

/-- body of Comms._single_spin for one endpoint name -/
def spinOne (s : St) (n : Name) : St × List Ev :=
  let (s1, e1) := callSources s n (s.srcs.at n)
  if (s1.sinks n).isSome || (s1.fwd n).isSome then
    let (s2, _, e2) := getData s1 n
    (s2, e1 ++ e2)
  else (s1, e1)

def spinNames (s : St) : List Name → St × List Ev
  | [] => (s, [])
  | n :: ns =>
    let (s1, e1) := spinOne s n
    let (s2, e2) := spinNames s1 ns
    (s2, e1 ++ e2)

def singleSpin (s : St) : St × List Ev := spinNames s s.names

def spinK (s : St) : Nat → St × List Ev
  | 0 => (s, [])
  | k + 1 =>
    let (s1, e1) := singleSpin s
    let (s2, e2) := spinK s1 k
    (s2, e1 ++ e2)

def step (s : St) : Op → St × Ret × List Ev
  | .fwd i o =>
    if i ∈ s.names ∧ o ∈ s.names then
      let (t, b) := register s.fwd i o
      ({ s with fwd := t }, Ret.bool b, [])
    else (s, Ret.bool false, [])
  | .del i o =>
    if o ∈ s.names then
      let (t, b) := unregister s.fwd i o
      ({ s with fwd := t }, Ret.bool b, [])
    else (s, Ret.bool false, [])
  | .sink i h =>
    match h with
    | some h => if i ∈ s.names then
        let (t, b) := register s.sinks i h
        ({ s with sinks := t }, Ret.bool b, [])
      else (s, Ret.bool false, [])
    | none => (s, Ret.bool false, [])
  | .source o h =>
    match h with
    | some h => if o ∈ s.names then
        let (t, b) := register s.srcs o h
        ({ s with srcs := t }, Ret.bool b, [])
      else (s, Ret.bool false, [])
    | none => (s, Ret.bool false, [])
  | .get i => getData s i
  | .send n d =>
    if n ∈ s.names then (s, Ret.bool (s.ep n).isOpen, [sendEv s n d]) else (s, Ret.none, [])
  | .spin k => let (s', e) := spinK s k; (s', Ret.none, e)
  | .opn n =>
    if n ∈ s.names then (setEp s n { s.ep n with isOpen := true }, Ret.bool true, [])
    else (s, Ret.bool false, [])
  | .cls n =>
    if n ∈ s.names then (setEp s n { s.ep n with isOpen := false }, Ret.bool (s.ep n).isOpen, [])
    else (s, Ret.bool false, [])
  | .inject n d =>
    (setEp s n { s.ep n with inbox := (s.ep n).inbox ++ [d] }, Ret.none, [])

def init (names : List Name) : St :=
  { names := names, ep := fun _ => { isOpen := false, inbox := [] },
    fwd := fun _ => none, sinks := fun _ => none, srcs := fun _ => none, cnt := fun _ => 0 }

def run (s : St) : List Op → St × List (Ret × List Ev)
  | [] => (s, [])
  | op :: ops =>
    let (s1, r, e) := step s op
    let (s2, outs) := run s1 ops
    (s2, (r, e) :: outs)

end BR.Comms
