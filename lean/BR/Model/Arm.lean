/-
  Model of basic_robotics/kinematics/arm_model.py (class Arm), kinematic state:
  base pose, the screws and tool home given at construction (base-local), the current local tool
  home, joint limits, stored joint vector and reported tool pose.  Solvers are oracles: what they
  answered is an input of the operation.
-/
import BR.Model.MR

namespace BR.ArmModel
open OrdField Scalar BR.MR

variable {α : Type} [Scalar α]

structure Arm (α : Type) where
  base : T4 α
  /-- screws as given to the constructor (expressed in the base frame) -/
  S0 : List (V6 α)
  /-- current / original tool home relative to the base -/
  Mloc : T4 α
  Morig : T4 α
  mins : List α
  maxs : List α
  theta : List α
  eePos : T4 α

/-- what the code stores: screws and tool home expressed in the world frame -/
def screwList (a : Arm α) : List (V6 α) := a.S0.map (fun S => (adjoint a.base).mulVec S)
def eeHome (a : Arm α) : T4 α := a.base * a.Mloc

/-- `thetaProtector`: clamp every joint value to its limits -/
def clamp1 (lo hi x : α) : α := if x < lo then lo else if hi < x then hi else x
def clamp (mins maxs θ : List α) : List α :=
  (θ.zip (mins.zip maxs)).map fun t => clamp1 t.2.1 t.2.2 t.1

/-- `FK(theta)` with `protect=False`: clamp, evaluate FKinSpace with the stored (world-frame) screws -/
def fk (a : Arm α) (θ : List α) : Arm α :=
  let θc := clamp a.mins a.maxs θ
  { a with theta := θc, eePos := fkinSpace (eeHome a) ((screwList a).zip θc) }

/-- `FK(theta, protect=True)`: no clamping (used by the limit-free solver's write-back) -/
def fkRaw (a : Arm α) (θ : List α) : Arm α :=
  { a with theta := θ, eePos := fkinSpace (eeHome a) ((screwList a).zip θ) }

inductive Op (α : Type) where
  | FK (θ : List α)
  /-- limit-respecting solver returned θ (success or not, the write-back is the same FK) -/
  | IK (θ : List α)
  /-- limit-free solver returned θ -/
  | IKfree (θ : List α)
  | move (B : T4 α)
  /-- `move(B, stationary=True)`: re-solve for the old tool pose; the solver's answer is θ -/
  | moveStationary (B : T4 α) (θ : List α)
  /-- `setArbitraryHome`: new tool frame D relative to the current tool pose -/
  | setHome (D : T4 α)
  | restore
  | randomPos (θ : List α)

def step (a : Arm α) : Op α → Arm α
  | .FK θ => fk a θ
  | .IK θ => fk a θ
  | .IKfree θ => fkRaw a θ
  | .move B => fk { a with base := B } a.theta
  | .moveStationary B θ => fk { a with base := B } θ
  | .setHome D => fk { a with Mloc := a.Mloc * D } a.theta
  | .restore => fk { a with Mloc := a.Morig } a.theta
  | .randomPos θ => fk a θ

def new (base : T4 α) (S0 : List (V6 α)) (M : T4 α) (mins maxs : List α) (zero : List α) : Arm α :=
  fk { base := base, S0 := S0, Mloc := M, Morig := M, mins := mins, maxs := maxs, theta := zero, eePos := base * M } zero

def run (a : Arm α) (ops : List (Op α)) : Arm α := ops.foldl step a

end BR.ArmModel
