/-
  Model of the geometric helpers of basic_robotics/general/faser_general.py and
  basic_helpers.py (C18).  Poses are six-vectors (position; rotation vector) or `Tm` objects.
-/
import BR.Model.Tm

namespace BR.Helpers
open OrdField Scalar BR.MR BR.TmModel

variable {α : Type} [Scalar α]

/-- `planeFromThreePoints`: (a, b, c, d) with a x + b y + c z = d -/
def planeFromThreePoints (p1 p2 p3 : V3 α) : V3 α × α :=
  let cp := V3.cross (p3 - p1) (p2 - p1)
  (cp, V3.dot cp p3)

def col1 (R : M3 α) : V3 α := ⟨R.a11, R.a21, R.a31⟩
def col2 (R : M3 α) : V3 α := ⟨R.a12, R.a22, R.a32⟩
def col3 (R : M3 α) : V3 α := ⟨R.a13, R.a23, R.a33⟩

/-- `mirror(origin, point)`: reflect across the local XY plane of `origin`
    (plane through origin, origin + x̂, origin + ŷ as `planePointsFromTransform` builds it) -/
def mirror (origin : Tm α) (pt : V3 α) : V3 α :=
  let o := origin.TAA.a
  let (n, d) := planeFromThreePoints o (o + col1 origin.TM.R) (o + col2 origin.TM.R)
  let k := (-n.x * pt.x - n.y * pt.y - n.z * pt.z + d) / (n.x * n.x + n.y * n.y + n.z * n.z)
  let foot : V3 α := ⟨n.x * k + pt.x, n.y * k + pt.y, n.z * k + pt.z⟩
  ⟨2 * foot.x - pt.x, 2 * foot.y - pt.y, 2 * foot.z - pt.z⟩

/-- `tmInterpMidpoint`: mean position, rotation half-way along the geodesic from R1 to R2 -/
def interpMidRot (r1 r2 : V3 α) : M3 α :=
  let R1 := matrixExp3 (hat r1)
  let R2 := matrixExp3 (hat r2)
  let Re := (R1 * R2.T).T
  let Re2 := matrixExp3 (hat (vee (M3.sdiv (matrixLog3 Re) 2)))
  Re2 * R1

def tmInterpMidpoint (a b : V6 α) : Tm α :=
  ofTAA ⟨V3.sdiv (a.a + b.a) 2, vee (matrixLog3 (interpMidRot a.b b.b))⟩

/-- `lookAt`: position of the first pose, local z towards the second -/
def lookAtT (va vb : V3 α) : T4 α :=
  let up : V3 α := ⟨0, 0, 1⟩
  let z := normalize (vb - va)
  let x := normalize (V3.cross up z)
  let y := V3.cross z x
  ⟨⟨x.x, y.x, z.x, x.y, y.y, z.y, x.z, y.z, z.z⟩, va⟩

def lookAt (va vb : V3 α) : Tm α := ofTM (lookAtT va vb)

/-- `distance` (positions only) -/
def distance (p q : V3 α) : α :=
  sqrt ((q.x - p.x) * (q.x - p.x) + (q.y - p.y) * (q.y - p.y) + (q.z - p.z) * (q.z - p.z))

def norm6 (v : V6 α) : α :=
  sqrt (v.a.x * v.a.x + v.a.y * v.a.y + v.a.z * v.a.z + v.b.x * v.b.x + v.b.y * v.b.y + v.b.z * v.b.z)

/-- `arcDistance`: norm of the relative pose -/
def arcDistance (a b : V6 α) : α := norm6 (globalToLocalTAA a b)

/-- `closeLinearGap`: six-vector of the result (`none` = the goal itself is returned) -/
def closeLinearGap (o g : V6 α) (δ : α) (isZero : α → Bool) : Option (V6 α) :=
  let d := g - o
  let n := norm6 d
  if isZero n then none else some (o + V6.smul δ (V6.sdiv d n))

/-- `closeArcGap`: origin @ TAAtoTM(direction·δ) -/
def closeArcGap (o g : V6 α) (δ : α) (isZero : α → Bool) : Option (T4 α) :=
  let d := g - o
  let n := norm6 d
  if isZero n then none else some (taaToTM o * taaToTM (V6.smul δ (V6.sdiv d n)))

/-- `IKPath`: the six-vectors of the poses (the last element is the goal object itself) -/
def ikPath (a b : V6 α) (steps : Nat) (ofNat : Nat → α) : List (V6 α) :=
  let delta := V6.sdiv (b - a) (ofNat (steps - 1))
  (List.range (steps - 1)).map (fun i => a + V6.smul (ofNat i) delta) ++ [b]

/-- `twistToGoal(start, end)` = vee6 (log6 (end · inv(start))) -/
def twistToGoal (eq0 : M3 α → Bool) (A B : T4 α) : V6 α := vee6 (matrixLog6 eq0 (B * transInv A))

/-- scalar `angleMod` of basic_helpers.py -/
def angleModScalar (r : α) : α := if 2 * pi < sabs r then pymod r (2 * pi) else r

/-- point `i` of `fiboSphere(n)` -/
def fiboPoint (i n : α) : V3 α :=
  let idx := i + (1 / 2 : α)
  let phi := acos (1 - 2 * idx / n)
  let theta := pi * (1 + sqrt 5) * idx
  ⟨cos theta * sin phi, sin theta * sin phi, cos phi⟩

/-- a point of `unitSphere` at azimuth a and height e -/
def unitSpherePoint (a e : α) : V3 α :=
  let ac := acos (safeClip e (-1) 1)
  ⟨cos a * sin ac, sin a * sin ac, cos ac⟩

end BR.Helpers
