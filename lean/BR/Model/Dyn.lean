/-
  Model of the Newton–Euler inverse dynamics of
  basic_robotics/modern_robotics_numba/modern_high_performance.py (InverseDynamics and the terms
  derived from it by calling it with selected zeros), over lists of links of any length.
-/
import BR.Model.MR

namespace BR.Dyn
open OrdField Scalar BR.MR

variable {α : Type} [Scalar α]

/-- what the forward pass needs of one link at the current configuration:
    A_i (screw in the link frame), Ad(T_{i,i-1}) and the spatial inertia G_i -/
structure Link (α : Type) where
  A : V6 α
  AdT : M6 α
  G : M6 α

def v6zero : V6 α := ⟨⟨0, 0, 0⟩, ⟨0, 0, 0⟩⟩

/-- the recursion from link i on: given V_{i-1}, V̇_{i-1} and the (already transformed) wrench coming from
    beyond the last link, returns the joint torques of links i.. and Ad(T_{i,i-1})ᵀ F_i -/
def idyn : List (Link α) → List (α × α) → V6 α → V6 α → V6 α → List α × V6 α
  | [], _, _, _, Ftip => ([], Ftip)
  | _ :: _, [], _, _, Ftip => ([], Ftip)
  | L :: Ls, (dθ, ddθ) :: rs, Vp, Vdp, Ftip =>
    let V := L.AdT.mulVec Vp + V6.smul dθ L.A
    let Vd := L.AdT.mulVec Vdp + V6.smul ddθ L.A + V6.smul dθ ((ad V).mulVec L.A)
    let (τs, Fn) := idyn Ls rs V Vd Ftip
    let F := Fn + L.G.mulVec Vd - (ad V).T.mulVec (L.G.mulVec V)
    (V6.dot F L.A :: τs, L.AdT.T.mulVec F)

/-- link data at configuration θ from (Mlist, Glist, Slist) exactly as `InverseDynamics` derives them -/
def linksOf (Mlist : List (T4 α)) (Glist : List (M6 α)) (Slist : List (V6 α)) (θ : List α) : List (Link α) :=
  let rec go (Mi : T4 α) : List (T4 α) → List (M6 α) → List (V6 α) → List α → List (Link α)
    | M :: Ms, G :: Gs, S :: Ss, t :: ts =>
      let Mi' := Mi * M
      let A := (adjoint (transInv Mi')).mulVec S
      let AdT := adjoint (matrixExp6 (hat6 (V6.smul (-t) A)) * transInv M)
      { A := A, AdT := AdT, G := G } :: go Mi' Ms Gs Ss ts
    | _, _, _, _ => []
  go T4.one Mlist Glist Slist θ

/-- `InverseDynamics(θ, θ̇, θ̈, g, Ftip, Mlist, Glist, Slist)` -/
def inverseDynamics (Mlist : List (T4 α)) (Glist : List (M6 α)) (Slist : List (V6 α)) (θ dθ ddθ : List α)
    (g : V3 α) (Ftip : V6 α) : List α :=
  let n := θ.length
  let tipAd := match Mlist[n]? with
    | some Mn => (adjoint (transInv Mn)).T.mulVec Ftip
    | none => Ftip
  (idyn (linksOf Mlist Glist Slist θ) (dθ.zip ddθ) v6zero ⟨⟨0, 0, 0⟩, V3.neg g⟩ tipAd).1

end BR.Dyn
