/-
  Model of the wrench bookkeeping of `SP.carryMassCalc` (basic_robotics/kinematics/sp_model.py): the wrench the legs carry is the
  applied wrench plus the weight of the top plate at its origin plus the weight of each actuator shaft at its centre of gravity,
  which lies on the leg at distance `cog` from the top joint towards the bottom joint (`getActuatorLoc(i, 't')`).
-/
import BR.Model.SP

namespace BR.SP
open OrdField Scalar BR.MR

variable {α : Type} [Scalar α]

/-- `fsr.getUnitVec(p1, p2, d)`: the point at distance d from p1 towards p2 -/
def pointTowards (p1 p2 : V3 α) (d : α) : V3 α := p1 + V3.smul d (normalize (p2 - p1))

/-- sum of the shaft weights, each acting at its centre of gravity -/
def shaftWrenches (g : V3 α) (mShaft cog : α) : List (V3 α) → List (V3 α) → V6 α
  | b :: bs, t :: ts => wrenchAt (pointTowards t b cog) (V3.smul mShaft g) + shaftWrenches g mShaft cog bs ts
  | _, _ => v6zero

/-- the wrench handed to `staticForces` by `carryMassCalc` -/
def carryWrench (W : V6 α) (g topPos : V3 α) (mTop mShaft cog : α) (bs ts : List (V3 α)) : V6 α :=
  W + wrenchAt topPos (V3.smul mTop g) + shaftWrenches g mShaft cog bs ts

end BR.SP
