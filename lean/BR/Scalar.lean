/-
  Scalar classes for the generic models (import-free).
  One definition of every model, two instances: `Float`/`Rat` (run by the driver in the
  correspondence check) and `ℝ` (BR/Real.lean, proofs only).
-/

/-- Ordered-field operations a model may use. No laws: laws come from the instance at `ℝ`. -/
class OrdField (α : Type) extends Add α, Sub α, Mul α, Div α, Neg α, LT α, LE α where
  /-- natural-number literal -/
  natLit : Nat → α
  /-- decimal literal `m * 10^(-e)` (`OfScientific` with sign `true`) or `m * 10^e` -/
  sciLit : Nat → Bool → Nat → α
  decLt : (a b : α) → Decidable (a < b)
  decLe : (a b : α) → Decidable (a ≤ b)

/-- Adds the transcendental functions the numeric kernels call. -/
class Scalar (α : Type) extends OrdField α where
  sin : α → α
  cos : α → α
  tan : α → α
  sqrt : α → α
  acos : α → α
  atan2 : α → α → α
  floor : α → α
  /-- the constant `np.pi` -/
  pi : α

namespace OrdField
variable {α : Type} [OrdField α]

instance (priority := low) (a b : α) : Decidable (a < b) := OrdField.decLt a b
instance (priority := low) (a b : α) : Decidable (a ≤ b) := OrdField.decLe a b
instance (priority := low) (n : Nat) : OfNat α n := ⟨OrdField.natLit n⟩
instance (priority := low) : OfScientific α := ⟨OrdField.sciLit⟩

/-- Python's `abs` on a float (sign test; agrees with `|x|` on an ordered field). -/
def sabs (x : α) : α := if x < 0 then -x else x
/-- `a > b` as the code writes it. -/
abbrev gt (a b : α) : Prop := b < a

def smax (a b : α) : α := if a < b then b else a
def smin (a b : α) : α := if b < a then b else a

end OrdField

export OrdField (sabs smax smin)

instance : OrdField Float where
  natLit n := Float.ofNat n
  sciLit m s e := Float.ofScientific m s e
  decLt a b := Float.decLt a b
  decLe a b := Float.decLe a b

instance : Scalar Float where
  sin := Float.sin
  cos := Float.cos
  tan := Float.tan
  sqrt := Float.sqrt
  acos := Float.acos
  atan2 := Float.atan2
  floor := Float.floor
  pi := 3.141592653589793

instance : OrdField Rat where
  natLit n := (n : Rat)
  sciLit m s e := (OfScientific.ofScientific m s e : Rat)
  decLt _ _ := inferInstance
  decLe _ _ := inferInstance
