/-
  Fixed-size vectors and matrices as structures (import-free; strict evaluation, `ext`-friendly).
-/
import BR.Scalar

namespace BR
open OrdField

@[ext] structure V3 (α : Type) where
  x : α
  y : α
  z : α

@[ext] structure M3 (α : Type) where
  a11 : α
  a12 : α
  a13 : α
  a21 : α
  a22 : α
  a23 : α
  a31 : α
  a32 : α
  a33 : α

/-- twist / wrench: (first three, last three) in the order the code stores them -/
@[ext] structure V6 (α : Type) where
  a : V3 α
  b : V3 α

/-- 6×6 matrix as 2×2 blocks -/
@[ext] structure M6 (α : Type) where
  tl : M3 α
  tr : M3 α
  bl : M3 α
  br : M3 α

/-- the top three rows of a 4×4 homogeneous matrix: rotation block and translation column.
    (What the MR kernels read through `TransToRp`, and all they write besides a constant row.) -/
@[ext] structure T4 (α : Type) where
  R : M3 α
  p : V3 α

section ops
variable {α : Type} [OrdField α]

namespace V3
def zero : V3 α := ⟨0, 0, 0⟩
def add (u v : V3 α) : V3 α := ⟨u.x + v.x, u.y + v.y, u.z + v.z⟩
def sub (u v : V3 α) : V3 α := ⟨u.x - v.x, u.y - v.y, u.z - v.z⟩
def neg (u : V3 α) : V3 α := ⟨-u.x, -u.y, -u.z⟩
def smul (k : α) (u : V3 α) : V3 α := ⟨k * u.x, k * u.y, k * u.z⟩
def sdiv (u : V3 α) (k : α) : V3 α := ⟨u.x / k, u.y / k, u.z / k⟩
def dot (u v : V3 α) : α := u.x * v.x + u.y * v.y + u.z * v.z
def cross (u v : V3 α) : V3 α :=
  ⟨u.y * v.z - u.z * v.y, u.z * v.x - u.x * v.z, u.x * v.y - u.y * v.x⟩
instance : Add (V3 α) := ⟨add⟩
instance : Sub (V3 α) := ⟨sub⟩
instance : Neg (V3 α) := ⟨neg⟩
end V3

namespace M3
def one : M3 α := ⟨1, 0, 0, 0, 1, 0, 0, 0, 1⟩
def zero : M3 α := ⟨0, 0, 0, 0, 0, 0, 0, 0, 0⟩
def add (A B : M3 α) : M3 α :=
  ⟨A.a11 + B.a11, A.a12 + B.a12, A.a13 + B.a13, A.a21 + B.a21, A.a22 + B.a22, A.a23 + B.a23,
   A.a31 + B.a31, A.a32 + B.a32, A.a33 + B.a33⟩
def sub (A B : M3 α) : M3 α :=
  ⟨A.a11 - B.a11, A.a12 - B.a12, A.a13 - B.a13, A.a21 - B.a21, A.a22 - B.a22, A.a23 - B.a23,
   A.a31 - B.a31, A.a32 - B.a32, A.a33 - B.a33⟩
def neg (A : M3 α) : M3 α :=
  ⟨-A.a11, -A.a12, -A.a13, -A.a21, -A.a22, -A.a23, -A.a31, -A.a32, -A.a33⟩
def smul (k : α) (A : M3 α) : M3 α :=
  ⟨k * A.a11, k * A.a12, k * A.a13, k * A.a21, k * A.a22, k * A.a23, k * A.a31, k * A.a32, k * A.a33⟩
def sdiv (A : M3 α) (k : α) : M3 α :=
  ⟨A.a11 / k, A.a12 / k, A.a13 / k, A.a21 / k, A.a22 / k, A.a23 / k, A.a31 / k, A.a32 / k, A.a33 / k⟩
def mul (A B : M3 α) : M3 α :=
  ⟨A.a11 * B.a11 + A.a12 * B.a21 + A.a13 * B.a31,
   A.a11 * B.a12 + A.a12 * B.a22 + A.a13 * B.a32,
   A.a11 * B.a13 + A.a12 * B.a23 + A.a13 * B.a33,
   A.a21 * B.a11 + A.a22 * B.a21 + A.a23 * B.a31,
   A.a21 * B.a12 + A.a22 * B.a22 + A.a23 * B.a32,
   A.a21 * B.a13 + A.a22 * B.a23 + A.a23 * B.a33,
   A.a31 * B.a11 + A.a32 * B.a21 + A.a33 * B.a31,
   A.a31 * B.a12 + A.a32 * B.a22 + A.a33 * B.a32,
   A.a31 * B.a13 + A.a32 * B.a23 + A.a33 * B.a33⟩
def T (A : M3 α) : M3 α := ⟨A.a11, A.a21, A.a31, A.a12, A.a22, A.a32, A.a13, A.a23, A.a33⟩
def mulVec (A : M3 α) (v : V3 α) : V3 α :=
  ⟨A.a11 * v.x + A.a12 * v.y + A.a13 * v.z,
   A.a21 * v.x + A.a22 * v.y + A.a23 * v.z,
   A.a31 * v.x + A.a32 * v.y + A.a33 * v.z⟩
def trace (A : M3 α) : α := A.a11 + A.a22 + A.a33
def det (A : M3 α) : α :=
  A.a11 * (A.a22 * A.a33 - A.a23 * A.a32) - A.a12 * (A.a21 * A.a33 - A.a23 * A.a31)
    + A.a13 * (A.a21 * A.a32 - A.a22 * A.a31)
instance : Add (M3 α) := ⟨add⟩
instance : Sub (M3 α) := ⟨sub⟩
instance : Neg (M3 α) := ⟨neg⟩
instance : Mul (M3 α) := ⟨mul⟩
end M3

namespace V6
def add (u v : V6 α) : V6 α := ⟨u.a + v.a, u.b + v.b⟩
def sub (u v : V6 α) : V6 α := ⟨u.a - v.a, u.b - v.b⟩
def smul (k : α) (u : V6 α) : V6 α := ⟨V3.smul k u.a, V3.smul k u.b⟩
def sdiv (u : V6 α) (k : α) : V6 α := ⟨V3.sdiv u.a k, V3.sdiv u.b k⟩
def dot (u v : V6 α) : α := V3.dot u.a v.a + V3.dot u.b v.b
instance : Add (V6 α) := ⟨add⟩
instance : Sub (V6 α) := ⟨sub⟩
end V6

namespace M6
def mul (A B : M6 α) : M6 α :=
  ⟨A.tl * B.tl + A.tr * B.bl, A.tl * B.tr + A.tr * B.br,
   A.bl * B.tl + A.br * B.bl, A.bl * B.tr + A.br * B.br⟩
def mulVec (A : M6 α) (v : V6 α) : V6 α :=
  ⟨A.tl.mulVec v.a + A.tr.mulVec v.b, A.bl.mulVec v.a + A.br.mulVec v.b⟩
def T (A : M6 α) : M6 α := ⟨A.tl.T, A.bl.T, A.tr.T, A.br.T⟩
def one : M6 α := ⟨M3.one, M3.zero, M3.zero, M3.one⟩
instance : Mul (M6 α) := ⟨mul⟩
end M6

namespace T4
/-- product of homogeneous matrices with last row 0 0 0 1 -/
def mul (A B : T4 α) : T4 α := ⟨A.R * B.R, A.R.mulVec B.p + A.p⟩
def one : T4 α := ⟨M3.one, V3.zero⟩
/-- action on a point -/
def act (A : T4 α) (v : V3 α) : V3 α := A.R.mulVec v + A.p
instance : Mul (T4 α) := ⟨mul⟩
end T4

end ops
end BR
